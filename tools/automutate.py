#!/usr/bin/env python3-vt
"""Development aid (not a registered check): generic mutation operators on the anchored functions of a
property; lists the mutants that NO rule of the property reports, for manual triage (a survivor is either
behaviour-preserving / outside the property, or a blind spot of the rules).
usage: tools/automutate.py C09 [max]"""
import ast, copy, multiprocessing as mp, os, sys
sys.path.insert(0, os.path.join(os.path.dirname(os.path.abspath(__file__)), ".."))
from sa.core import report
from sa.core.source import SourceSet, PKG

ANCH = {
 "C01": [("dec/dec.py", ["DecFileParser.parse", "DecFileParser._find_parsed_decays", "DecFileParser._check_parsed_decays", "DecFileParser._decay_mode_details", "DecFileParser._find_decay_modes",
                         "DecFileParser.list_decay_modes", "DecFileParser.list_decay_mother_names", "get_decay_mother_name", "get_branching_fraction", "get_final_state_particles",
                         "get_final_state_particle_names", "get_model_name", "get_model_parameters", "get_decays", "DecayModelParamValueReplacement._replacement"])],
 "C03": [("dec/dec.py", ["DecFileParser._add_charge_conjugate_decays", "ChargeConjugateReplacement.particle", "find_charge_conjugate_match", "DecFileParser.parse"])],
 "C05": [("dec/dec.py", ["DecayModelAliasReplacement._replacement", "DecayModelAliasReplacement.model", "DecayModelParamValueReplacement._replacement", "DecayModelParamValueReplacement.model_options",
                         "DecFileParser._dict_raw_model_aliases", "get_definitions"])],
 "C07": [("dec/dec.py", ["get_charge_conjugate_decays", "get_decays2copy_statements", "get_definitions", "get_aliases", "get_charge_conjugate_defs", "get_particle_property_definitions",
                         "get_pythia_definitions", "get_jetset_definitions", "get_lineshape_settings", "get_lineshapePW_definitions", "get_global_photos_flag", "_str_or_float", "_str_to_bool"])],
 "C08": [("dec/dec.py", ["DecFileParser._add_decays_to_be_copied", "DecFileParser.expand_decay_modes", "DecFileParser.build_decay_chains"])],
 "C09": [("dec/dec.py", ["DecFileParser.build_decay_chains", "DecFileParser._find_decay_modes"])],
 "C10": [("decay/decay.py", ["_expand_decay_modes", "_get_modes", "_get_fs"]), ("dec/dec.py", ["DecFileParser.expand_decay_modes"])],
 "C11": [("decay/decay.py", ["DaughtersDict.__init__", "DaughtersDict.to_list", "DaughtersDict.to_string", "DaughtersDict.__len__", "DecayMode.__init__", "DecayMode.from_dict", "DecayMode.from_pdgids",
                             "DecayMode.to_dict", "_build_decay_modes", "DecayChain.from_dict", "DecayChain.to_dict", "_has_no_subdecay"])],
 "C12": [("decay/decay.py", ["DecayChain.flatten", "DecayChain.visible_bf", "DecayChain.bf", "DecayChain.top_level_decay"])],
 "C13": [("decay/decay.py", ["DecayChain.to_string", "DaughtersDict.to_string"]), ("utils/utilities.py", ["DescriptorFormat.format_descriptor"])],
 "C14": [("utils/utilities.py", ["DescriptorFormat.__init__", "DescriptorFormat.__enter__", "DescriptorFormat.__exit__", "DescriptorFormat.set_config"])],
 "C15": [("decay/viewer.py", ["DecayChainViewer._build_decay_graph"])],
 "C16": [("dec/dec.py", ["DecFileParser.print_decay_modes"])],
 "C17": [("modeling/amplitudechain.py", ["AmplitudeChain.read_ampgen", "AmplitudeChain.from_matched_line", "AmplitudeChain.expand_lines"]),
         ("modeling/ampgentransform.py", ["AmpGenTransformer.constant", "AmpGenTransformer.event_type", "AmpGenTransformer.checkfixed", "AmpGenTransformer.variable", "AmpGenTransformer.cplx_decay_line", "AmpGenTransformer.decay", "get_from_parser"])],
 "C18": [("modeling/decay.py", ["ModelDecay.list_structure", "ModelDecay.structure", "ModelDecay.vertexes"]),
         ("modeling/goofit.py", ["GooFitChain.make_spinfactor", "GooFitChain.make_linefactor", "GooFitChain.make_amplitude", "GooFitChain.to_goofit", "GooFitPyChain.make_spinfactor", "GooFitPyChain.make_linefactor", "GooFitPyChain.make_amplitude", "GooFitPyChain.to_goofit",
                                 "GooFitChain.spindetails", "GooFitChain.spinfactors", "GooFitChain.formfactor", "GooFitChain.decay_structure"]), ("modeling/amplitudechain.py", ["AmplitudeChain.ls_enum", "AmplitudeChain.L"])],
 "C19": [("modeling/goofit.py", ["GooFitChain.make_intro", "GooFitChain.make_pars", "GooFitPyChain.make_intro", "GooFitPyChain.make_pars", "GooFitChain.make_lineshape", "GooFitPyChain.make_lineshape", "GooFitChain.make_amplitude", "GooFitPyChain.make_amplitude"]),
         ("modeling/ampgen2goofit.py", ["ampgen2goofit", "ampgen2goofitpy"])],
 "C20": [("modeling/amplitudechain.py", ["AmplitudeChain.read_ampgen", "AmplitudeChain.from_matched_line"]), ("modeling/goofit.py", ["GooFitChain.read_ampgen", "GooFitPyChain.read_ampgen"])],
 "C04": [("utils/particleutils.py", ["charge_conjugate_name"]), ("decay/decay.py", ["DaughtersDict.charge_conjugate", "DecayMode.charge_conjugate"])],
 "C06": [("dec/dec.py", ["DecFileParser._generate_edit_terminals_callback", "DecFileParser.load_additional_decay_models", "DecayModelAliasReplacement._replacement", "DecayModelAliasReplacement.model"])],
 "C02": [("dec/dec.py", ["DecFileParser.__init__", "DecFileParser.from_string"])],
}


def find_fn(tree, qual):
    parts = qual.split(".")
    body = tree.body
    node = None
    for p in parts:
        node = next((n for n in body if isinstance(n, (ast.FunctionDef, ast.ClassDef)) and n.name == p), None)
        if node is None:
            return None
        body = node.body
    return node


def sites(fn):
    """(op, locator) for every mutation site; locator = index in ast.walk order."""
    out = []
    for i, n in enumerate(ast.walk(fn)):
        if isinstance(n, ast.For):
            out.append(("slice-iter", i))
        if isinstance(n, (ast.ListComp, ast.GeneratorExp, ast.SetComp, ast.DictComp)):
            out.append(("slice-comp", i))
        if isinstance(n, ast.Call) and (n.args or n.keywords) and not (isinstance(n.func, ast.Name) and n.func.id in ("isinstance", "print", "RuntimeError", "ValueError")):
            out.append(("drop-arg", i))
        if isinstance(n, ast.If):
            out.append(("negate-if", i))
        if isinstance(n, ast.IfExp):
            out.append(("negate-ifexp", i))
        if isinstance(n, ast.Compare):
            out.append(("swap-cmp", i))
        if isinstance(n, ast.Constant) and isinstance(n.value, bool):
            out.append(("flip-bool", i))
        elif isinstance(n, ast.Constant) and isinstance(n.value, int) and not isinstance(n.value, bool):
            out.append(("inc-int", i))
        if isinstance(n, ast.Expr) and isinstance(n.value, ast.Call):
            out.append(("drop-stmt", i))
        if isinstance(n, (ast.Assign, ast.AugAssign)) and not isinstance(getattr(n, "value", None), ast.Constant):
            tg = n.targets[0] if isinstance(n, ast.Assign) else n.target
            # dropping the only binding of a plain local just raises NameError (caught by any test): not interesting
            if isinstance(tg, (ast.Attribute, ast.Subscript)) or isinstance(n, ast.AugAssign):
                out.append(("drop-assign", i))
        if isinstance(n, ast.Subscript) and isinstance(n.slice, ast.Constant) and isinstance(n.slice.value, int):
            pass
        if isinstance(n, ast.Attribute) and n.attr in ("real", "imag"):
            out.append(("swap-attr", i))
        if isinstance(n, ast.BoolOp):
            out.append(("boolop", i))
    return out


def mutate(fn, op, idx):
    fn2 = copy.deepcopy(fn)
    nodes = list(ast.walk(fn2))
    n = nodes[idx]
    if op == "slice-iter":
        n.iter = ast.Subscript(value=ast.Call(func=ast.Name(id="list", ctx=ast.Load()), args=[n.iter], keywords=[]), slice=ast.Slice(upper=ast.Constant(1)), ctx=ast.Load())
    elif op == "slice-comp":
        g = n.generators[0]
        g.iter = ast.Subscript(value=ast.Call(func=ast.Name(id="list", ctx=ast.Load()), args=[g.iter], keywords=[]), slice=ast.Slice(upper=ast.Constant(1)), ctx=ast.Load())
    elif op == "drop-arg":
        if n.keywords:
            n.keywords = n.keywords[:-1]
        else:
            n.args = n.args[:-1]
    elif op == "negate-if":
        n.test = ast.UnaryOp(op=ast.Not(), operand=n.test)
    elif op == "negate-ifexp":
        n.body, n.orelse = n.orelse, n.body
    elif op == "swap-cmp":
        m = {ast.Eq: ast.NotEq, ast.NotEq: ast.Eq, ast.In: ast.NotIn, ast.NotIn: ast.In, ast.Gt: ast.GtE, ast.GtE: ast.Gt, ast.Lt: ast.LtE, ast.LtE: ast.Lt, ast.Is: ast.IsNot, ast.IsNot: ast.Is}
        n.ops = [m.get(type(o), type(o))() for o in n.ops]
    elif op == "flip-bool":
        n.value = not n.value
    elif op == "inc-int":
        n.value = n.value + 1
    elif op in ("drop-stmt", "drop-assign"):
        # replace by pass
        for p in ast.walk(fn2):
            for f in ("body", "orelse", "finalbody"):
                b = getattr(p, f, None)
                if isinstance(b, list) and n in b:
                    b[b.index(n)] = ast.Pass()
            if isinstance(p, ast.Try):
                for h in p.handlers:
                    if n in h.body:
                        h.body[h.body.index(n)] = ast.Pass()
    elif op == "swap-attr":
        n.attr = "imag" if n.attr == "real" else "real"
    elif op == "boolop":
        n.op = ast.Or() if isinstance(n.op, ast.And) else ast.And()
    ast.fix_missing_locations(fn2)
    return fn2


BASEV: set = set()


def evaluate(args):
    prop, short, qual, op, idx = args
    from sa.main import evaluate as ev
    ss = SourceSet.load()
    tree = ast.parse(ss.text(short))
    fn = find_fn(tree, qual)
    base = ast.unparse(fn)
    try:
        m = mutate(fn, op, idx)
        new = ast.unparse(m)
    except Exception as e:
        return None
    if new == base:
        return None
    # splice into the module
    t2 = ast.parse(ss.text(short))
    f2 = find_fn(t2, qual)
    f2.body = m.body
    f2.args = m.args
    src = ast.unparse(t2) + "\n"
    try:
        compile(src, short, "exec")
    except SyntaxError:
        return None
    ctx, _, _ = ev(prop, "quick", ss.overlay({ss.rel(short): src}), selftest=False)
    v = [r for r in ctx.results if r.verdict == report.VIOLATION and r.key() not in BASEV]
    u = [r for r in ctx.results if r.verdict == report.UNDECIDED]
    # diff line
    import difflib
    d = [l for l in difflib.unified_diff(base.splitlines(), new.splitlines(), lineterm="", n=0) if l[:1] in "+-" and l[:3] not in ("+++", "---")]
    return (qual, op, idx, "V" if v else ("U" if u else "-"), " | ".join(x.strip() for x in d)[:230], sorted({r.rule for r in v})[:3])


def main():
    prop = sys.argv[1]
    ss = SourceSet.load()
    jobs = []
    for short, quals in ANCH[prop]:
        tree = ast.parse(ss.text(short))
        for q in quals:
            fn = find_fn(tree, q)
            if fn is None:
                print("missing", q)
                continue
            for op, idx in sites(fn):
                jobs.append((prop, short, q, op, idx))
    # known-finding baseline: ignore base violations by comparing to a clean run
    from sa.main import evaluate as ev
    base, _, _ = ev(prop, "quick", ss, selftest=False)
    BASEV.update(r.key() for r in base.results if r.verdict == report.VIOLATION)   # inherited by the forked workers
    with mp.Pool(14) as pool:
        res = [r for r in pool.map(evaluate, jobs, chunksize=4) if r]
    det = [r for r in res if r[3] == "V"]
    und = [r for r in res if r[3] == "U"]
    sur = [r for r in res if r[3] == "-"]
    print(f"{prop}: {len(res)} mutants, detected {len(det)}, undecided-only {len(und)}, survivors {len(sur)}")
    for r in und:
        print("  UNDECIDED", r[0], r[1], "::", r[4])
    for r in sur:
        print("  SURVIVOR", r[0], r[1], "::", r[4])


if __name__ == "__main__":
    main()
