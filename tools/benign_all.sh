#!/bin/sh
# Whole-package behaviour-preserving rewrites of /repo/src (reformat; + harmless statement in every function;
# + systematic rename of every function-local variable) must leave all 20 checks silent.
cd "$(dirname "$0")/.." || exit 2
rc=0
for m in unparse stmt rename; do
  tools/benign_transform.py $m /tmp/benign_$m >/dev/null || exit 2
  out=$(tools/trial.sh /tmp/benign_$m)
  echo "== $m"; echo "$out"
  echo "$out" | grep -q "rc=" && rc=1
  rm -rf /tmp/benign_$m
done
exit $rc
