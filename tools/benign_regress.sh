#!/bin/sh
# tools/benign_regress.sh [dir-pattern] : every stored behaviour-preserving refactoring (benign/<id>/refactor-k.patch, written
# by sub-agents that saw only a property text and a scratch worktree) is applied alone to a scratch copy of /repo/src and
# ALL 20 quick checks must stay silent (exit 0, no VIOLATION / ANALYSIS-ERROR line). /repo is never touched.
cd "$(dirname "$0")/.." || exit 2
V=$(pwd)
rc=0; n=0; bad=0
for p in benign/${1:-*}/refactor-*.patch; do
  n=$((n+1))
  t=/tmp/benigntree_$$; rm -rf $t; mkdir -p $t; cp -r /repo/src $t/src
  if ! (cd $t && git apply "$V/$p" 2>/dev/null); then echo "$p: does not apply to current /repo (skipped)"; rm -rf $t; continue; fi
  out=""
  for i in 01 02 03 04 05 06 07 08 09 10 11 12 13 14 15 16 17 18 19 20; do
    o=$(VERIF_REPO=$t ./check C$i quick 2>&1); c=$?
    if [ $c -ne 0 ]; then out="$out
C$i rc=$c: $(echo "$o" | grep -v '^KNOWN-FINDING\|^    construct\|^VIOLATION\|^C'$i' \[' | head -2 | cut -c1-260)"; fi
  done
  if [ -n "$out" ]; then echo "$p: ALARM$out"; rc=1; bad=$((bad+1)); else echo "$p: silent"; fi
  rm -rf $t
done
echo "benign refactorings: $n tried, $bad with alarms"
exit $rc
