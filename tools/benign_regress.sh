#!/bin/sh
# tools/benign_regress.sh [dir-pattern] : every stored behaviour-preserving refactoring (benign/<id>/refactor-k.patch, written
# by sub-agents that saw only a property text and a scratch worktree) is applied alone to a scratch copy of /repo/src and
# ALL 20 quick checks must stay silent (exit 0, no VIOLATION / ANALYSIS-ERROR line). /repo is never touched. 14 in parallel.
cd "$(dirname "$0")/.." || exit 2
V=$(pwd)
ls benign/${1:-*}/refactor-*.patch | xargs -P 14 -I{} sh -c '
p="{}"; V="'"$V"'"
t=$(mktemp -d /tmp/benigntree_XXXXXX); cp -r /repo/src $t/src
if ! (cd $t && git apply "$V/$p" 2>/dev/null); then echo "$p: does not apply to current /repo (skipped)"; rm -rf $t; exit 0; fi
out=""
for i in 01 02 03 04 05 06 07 08 09 10 11 12 13 14 15 16 17 18 19 20; do
  o=$(cd $V && VERIF_REPO=$t VERIF_SCRATCH=$t/out ./check C$i quick 2>&1); c=$?
  if [ $c -ne 0 ]; then out="$out
  C$i rc=$c: $(echo "$o" | grep -v "^KNOWN-FINDING\|^    construct\|^VIOLATION\|^C$i \[" | head -2 | cut -c1-260)"; fi
done
if [ -n "$out" ]; then echo "$p: ALARM$out"; else echo "$p: silent"; fi
rm -rf $t
' > /tmp/benign_regress_$$.log 2>&1
cat /tmp/benign_regress_$$.log | sort
n=$(grep -c "refactor-" /tmp/benign_regress_$$.log); bad=$(grep -c ": ALARM" /tmp/benign_regress_$$.log)
echo "benign refactorings: $n tried, $bad with alarms"
rm -f /tmp/benign_regress_$$.log
[ "$bad" = "0" ]
