#!/usr/bin/env python3-vt
"""Write a behaviour-preserving variant of /repo/src to <out>/src:
   mode unparse   : re-emit every module through ast.unparse (drops comments, reformats)
   mode stmt      : additionally insert a harmless first statement into every function
   mode rename    : additionally rename every function-local variable (not parameters) x -> x_v
Used to check that no rule fires on refactorings that leave behaviour unchanged."""
import ast, os, shutil, symtable, sys

mode, out = sys.argv[1], sys.argv[2]
shutil.rmtree(out, ignore_errors=True)
shutil.copytree("/repo/src", os.path.join(out, "src"))


class Renamer(ast.NodeTransformer):
    def __init__(self):
        self.stack = []

    def _locals(self, fn):
        names = set()
        params = {a.arg for a in fn.args.posonlyargs + fn.args.args + fn.args.kwonlyargs}
        if fn.args.vararg:
            params.add(fn.args.vararg.arg)
        if fn.args.kwarg:
            params.add(fn.args.kwarg.arg)
        glob = set()
        for n in ast.walk(fn):
            if isinstance(n, (ast.Global, ast.Nonlocal)):
                glob |= set(n.names)
        def collect(node):
            for ch in ast.iter_child_nodes(node):
                if isinstance(ch, (ast.FunctionDef, ast.AsyncFunctionDef, ast.ClassDef, ast.Lambda)):
                    if isinstance(ch, (ast.FunctionDef, ast.AsyncFunctionDef)):
                        pass
                    continue
                if isinstance(ch, ast.Name) and isinstance(ch.ctx, ast.Store):
                    names.add(ch.id)
                collect(ch)
        collect(fn)
        # names used by nested functions as free variables must keep their meaning: rename consistently there too
        return {n for n in names if n not in params and n not in glob and not n.startswith("__")}

    def visit_FunctionDef(self, node):
        loc = self._locals(node)
        self.stack.append(loc)
        node.body = [self.visit(s) for s in node.body]
        self.stack.pop()
        return node

    def visit_Lambda(self, node):
        shadow = {a.arg for a in node.args.args}
        self.stack.append(("shadow", shadow))
        node.body = self.visit(node.body)
        self.stack.pop()
        return node

    def visit_Name(self, node):
        for fr in reversed(self.stack):
            if isinstance(fr, tuple):
                if node.id in fr[1]:
                    return node
                continue
            if node.id in fr:
                return ast.copy_location(ast.Name(id=node.id + "_v", ctx=node.ctx), node)
            # parameter or local of an inner frame shadows outer names only if assigned there; params are not in fr
        return node

    def visit_ListComp(self, node):
        return self._comp(node)
    visit_SetComp = visit_GeneratorExp = visit_DictComp = visit_ListComp

    def _comp(self, node):
        bound = set()
        for g in node.generators:
            for n in ast.walk(g.target):
                if isinstance(n, ast.Name):
                    bound.add(n.id)
        self.stack.append(("shadow", bound))
        node = self.generic_visit(node)
        self.stack.pop()
        return node


for dp, dn, fns in os.walk(os.path.join(out, "src", "decaylanguage")):
    for f in fns:
        if not f.endswith(".py"):
            continue
        p = os.path.join(dp, f)
        t = ast.parse(open(p).read())
        if mode in ("stmt", "rename"):
            for n in ast.walk(t):
                if isinstance(n, ast.FunctionDef):
                    i = 1 if (n.body and isinstance(n.body[0], ast.Expr) and isinstance(n.body[0].value, ast.Constant)) else 0
                    n.body.insert(i, ast.parse("_trace_enabled = False").body[0])
        if mode == "rename":
            t = Renamer().visit(t)
        ast.fix_missing_locations(t)
        open(p, "w").write(ast.unparse(t) + "\n")
print(out)
