#!/usr/bin/env python3
"""Rewrite the seeded-changes table of DESIGN.md §13.1 from seeded/*/meta.json (between the two markers)."""
import glob, json, os
V = os.path.join(os.path.dirname(os.path.abspath(__file__)), "..")
rows = []
for d in sorted(glob.glob(os.path.join(V, "seeded", "*"))):
    m = json.load(open(d + "/meta.json"))
    diff = open(d + "/patch.diff").read()
    files = sorted({l[6:].split("/")[-1] for l in diff.splitlines() if l.startswith("+++ b/")})
    rows.append(f"| {os.path.basename(d)} | {','.join(files)} | {m['caught_by'].replace('|', '/')} |")
p = os.path.join(V, "DESIGN.md")
s = open(p).read()
b, e = "<!-- seeds-table-begin -->", "<!-- seeds-table-end -->"
table = f"{b}\n{len(rows)} stored changes.\n\n| seed | file(s) changed | reported by (rule: reason) |\n|---|---|---|\n" + "\n".join(rows) + f"\n{e}"
if b in s:
    s = s[:s.index(b)] + table + s[s.index(e) + len(e):]
else:
    a = s.index("| seed | file(s) changed |")
    z = s.index("\n\n", a)
    s = s[:a] + table + s[z:]
open(p, "w").write(s)
print(len(rows), "rows")
