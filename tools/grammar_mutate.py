#!/usr/bin/env python3-vt
"""Development aid (not a registered check): mutation operators on the Lark grammar files; lists the mutants that
no rule of the properties reading that grammar reports.  A survivor is then triaged by hand (tools/grammar_probe.py runs
the real parser on the mutated grammar for that purpose only — the checks themselves never run the parser).
usage: tools/grammar_mutate.py decfile|ampgen"""
import multiprocessing as mp, os, re, sys
sys.path.insert(0, os.path.join(os.path.dirname(os.path.abspath(__file__)), ".."))
from sa.core import report
from sa.core.source import SourceSet

WHICH = {
    "decfile": ("data/decfile.lark", ["C01", "C02", "C03", "C05", "C06", "C07", "C09"]),
    "ampgen": ("data/ampgen.lark", ["C17", "C18", "C19", "C20"]),
}


def code_spans(line):
    """split a grammar line into (kind, text) pieces: 'str', 'rx', 'code', 'comment'"""
    out, i, n = [], 0, len(line)
    cur = ""
    while i < n:
        c = line[i]
        if line.startswith("//", i) and not cur.rstrip().endswith(":/"):
            if cur:
                out.append(("code", cur)); cur = ""
            out.append(("comment", line[i:]))
            return out
        if c == '"':
            j = i + 1
            while j < n and line[j] != '"':
                j += 2 if line[j] == "\\" else 1
            if cur:
                out.append(("code", cur)); cur = ""
            out.append(("str", line[i:j + 1])); i = j + 1
            continue
        if c == "/" and (not cur or cur.rstrip()[-1:] in ":|( " or cur.rstrip() == "" or cur.rstrip()[-1:] == '"'):
            j = i + 1
            while j < n and line[j] != "/":
                j += 2 if line[j] == "\\" else 1
            if j < n:
                if cur:
                    out.append(("code", cur)); cur = ""
                out.append(("rx", line[i:j + 1])); i = j + 1
                continue
        cur += c
        i += 1
    if cur:
        out.append(("code", cur))
    return out


def mutants(text):
    lines = text.split("\n")
    res = []   # (description, new_text)

    def emit(li, new_line, desc):
        if new_line != lines[li]:
            res.append((f"L{li+1} {desc}: `{lines[li].strip()[:70]}` -> `{new_line.strip()[:70]}`", "\n".join(lines[:li] + [new_line] + lines[li + 1:])))

    for li, line in enumerate(lines):
        if not line.strip() or line.strip().startswith("//") or line.strip().startswith("%import"):
            continue
        if line.strip().startswith("%ignore"):
            emit(li, "// " + line, "drop-ignore")
            continue
        sp = code_spans(line)
        # operate on one span at a time
        for si, (kind, t) in enumerate(sp):
            def rebuilt(newt):
                return "".join(newt if k == si else x for k, (_, x) in enumerate(sp))
            if kind == "code":
                for m in re.finditer(r"[+*?]", t):
                    pos = m.start()
                    # `?rule` prefix
                    if t[pos] == "?" and (pos == 0 or t[:pos].strip() == ""):
                        emit(li, rebuilt(t[:pos] + t[pos + 1:]), "un-inline")
                        continue
                    for r in {"+": ["*", ""], "*": ["+", ""], "?": ["", "*"]}[t[pos]]:
                        emit(li, rebuilt(t[:pos] + r + t[pos + 1:]), f"quant {t[pos]}->{r or 'none'}")
                # priorities
                for m in re.finditer(r"^(\s*[A-Z_0-9]+)\.(\d+)(\s*:)", t):
                    emit(li, rebuilt(m.group(1) + m.group(3) + t[m.end():]), "drop-priority")
                    emit(li, rebuilt(m.group(1) + ".0" + m.group(3) + t[m.end():]), "priority-0")
                # drop one alternative (`| x`)
                if "|" in line and si == len([1 for k, _ in sp[:si + 1]]) - 1:
                    pass
                # add ?-inline to a plain rule
                m = re.match(r"^([a-z_][a-z_0-9]*)\s*:", t)
                if m and si == 0 and not m.group(1).startswith("_"):
                    emit(li, "?" + line, "inline-rule")
                # alias swap
                if "->" in t:
                    emit(li, rebuilt(re.sub(r"->\s*\w+", "", t)), "drop-alias")
            elif kind == "str":
                inner = t[1:-1]
                if inner and inner.isalpha():
                    emit(li, rebuilt('"' + inner.lower() + '"') if inner.lower() != inner else rebuilt('"' + inner.upper() + '"'), "keyword-case")
                    emit(li, rebuilt('"' + inner + '"i'), "keyword-case-insensitive")
            elif kind == "rx":
                body = t[1:-1]
                # character-class members
                for m in re.finditer(r"\[(\^?)((?:\\.|[^\]\\])*)\]", body):
                    members = re.findall(r"\\.|[a-zA-Z0-9]-[a-zA-Z0-9]|.", m.group(2))
                    for k, mem in enumerate(members):
                        nb = body[:m.start(2)] + "".join(members[:k] + members[k + 1:]) + body[m.end(2):]
                        emit(li, rebuilt("/" + nb + "/"), f"class-drop {mem}")
                for m in re.finditer(r"[+*?]", body):
                    if body[max(0, m.start() - 1)] == "\\" or (m.start() and body[m.start() - 1] == "[" ):
                        continue
                    # skip inside classes
                    if re.search(r"\[[^\]]*$", body[:m.start()]):
                        continue
                    for r in {"+": ["*", ""], "*": ["+", ""], "?": ["", "*"]}[body[m.start()]]:
                        emit(li, rebuilt("/" + body[:m.start()] + r + body[m.end():] + "/"), f"rx-quant {body[m.start()]}->{r or 'none'}")
                if body == "\\b":
                    emit(li, rebuilt(""), "drop-boundary")
        # drop alternatives of a rule line
        if ":" in line and "|" in line and not line.strip().startswith("|"):
            head, _, rhs = line.partition(":")
            # split on top-level |
            alts, depth, cur, instr, inrx = [], 0, "", False, False
            for ch in rhs:
                if ch == '"' and not inrx:
                    instr = not instr
                if ch in "([" and not instr:
                    depth += 1
                if ch in ")]" and not instr:
                    depth -= 1
                if ch == "|" and depth == 0 and not instr:
                    alts.append(cur); cur = ""
                else:
                    cur += ch
            alts.append(cur)
            if len(alts) > 1 and "//" not in rhs.split('"')[0]:
                for k in range(len(alts)):
                    new = head + ":" + "|".join(alts[:k] + alts[k + 1:])
                    emit(li, new, f"drop-alt {alts[k].strip()[:20]}")
                if len(alts) >= 2:
                    new = head + ":" + "|".join([alts[1], alts[0]] + alts[2:])
                    emit(li, new, "swap-alts")
    # de-duplicate
    seen, out = set(), []
    for d, t in res:
        if t not in seen:
            seen.add(t)
            out.append((d, t))
    return out


BASEV: dict = {}


def evaluate(args):
    gfile, props, desc, text = args
    from sa.main import evaluate as ev
    ss = SourceSet.load()
    ms = ss.overlay({ss.rel(gfile): text})
    hits, und = [], []
    for p in props:
        try:
            ctx, _, _ = ev(p, "quick", ms, selftest=False)
        except Exception as e:
            und.append(f"{p}:crash {type(e).__name__}")
            continue
        v = [r for r in ctx.results if r.verdict == report.VIOLATION and r.key() not in BASEV.get(p, ())]
        u = [r for r in ctx.results if r.verdict == report.UNDECIDED]
        if v:
            hits.append(f"{v[0].rule}")
        elif u:
            und.append(f"{u[0].rule}?")
    return desc, hits, und, text


def main():
    which = sys.argv[1]
    gfile, props = WHICH[which]
    ss = SourceSet.load()
    from sa.main import evaluate as ev
    for p in props:
        ctx, _, _ = ev(p, "quick", ss, selftest=False)
        BASEV[p] = {r.key() for r in ctx.results if r.verdict == report.VIOLATION}
    text = ss.text(gfile)
    ms = mutants(text)
    with mp.Pool(14) as pool:
        res = pool.map(evaluate, [(gfile, props, d, t) for d, t in ms], chunksize=2)
    det = [r for r in res if r[1]]
    und = [r for r in res if not r[1] and r[2]]
    sur = [r for r in res if not r[1] and not r[2]]
    print(f"{which}: {len(res)} grammar mutants, detected {len(det)}, undecided-only {len(und)}, survivors {len(sur)}")
    os.makedirs("/tmp/gmut", exist_ok=True)
    for i, r in enumerate(und):
        print("  UNDECIDED", r[0], r[2])
    for i, r in enumerate(sur):
        open(f"/tmp/gmut/{which}-{i}.lark", "w").write(r[3])
        print(f"  SURVIVOR [{i}]", r[0])
    if "-v" in sys.argv:
        for r in det:
            print("  detected", r[0], r[1])


if __name__ == "__main__":
    main()
