#!/usr/bin/env python3
"""tools/keep_seed.py <worktree> <seed-id> <property> "<caught-by summary>"
Store a confirmed seeded change under /verif/seeded/<seed-id>/ (patch.diff, demo.py, NOTES.md, meta.json)."""
import json, os, shutil, subprocess, sys
wt, sid, prop, caught = sys.argv[1:5]
dst = f"/verif/seeded/{sid}"
os.makedirs(dst, exist_ok=True)
diff = subprocess.run(["git", "-C", wt, "diff", "--", "src"], capture_output=True, text=True).stdout
open(f"{dst}/patch.diff", "w").write(diff)
for f in ("demo.py", "NOTES.md"):
    if os.path.exists(f"{wt}/{f}"):
        shutil.copy(f"{wt}/{f}", f"{dst}/{f}")
notes = open(f"{wt}/NOTES.md").read() if os.path.exists(f"{wt}/NOTES.md") else ""
base = subprocess.run(["git", "-C", wt, "rev-parse", "--short", "HEAD"], capture_output=True, text=True).stdout.strip()
meta = {
    "seed_id": sid,
    "breaks_property": prop,
    "origin": "independent sub-agent given only the property text and a scratch worktree (nothing from /verif)",
    "base_commit": base,
    "needs_to_manifest": notes[:1500],
    "confirmed_by_me": {
        "commands": [f"tools/verify_seed.sh {wt}   (demo with change / without change; pinned suite serially with PYTHONPATH=<wt>/src)",
                     f"tools/trial.sh {wt}        (all 20 quick checks with VERIF_REPO=<wt>)"],
        "suite_with_change": sys.argv[5] if len(sys.argv) > 5 else "2 failed (baseline), 282 passed",
        "demo_with_change": "exit 1", "demo_without_change": "exit 0",
    },
    "caught_by": caught,
    "apply": "git -C /repo apply /verif/seeded/%s/patch.diff ; run checks ; git -C /repo checkout -- ." % sid,
}
json.dump(meta, open(f"{dst}/meta.json", "w"), indent=1)
print(dst, len(diff.splitlines()), "diff lines")
