#!/bin/sh
# tools/mkwt.sh <name>: scratch git worktree of /repo HEAD under /tmp/wt/<name> (for seeded-change sub-agents)
set -e
n="$1"
mkdir -p /tmp/wt
git -C /repo worktree add --detach "/tmp/wt/$n" HEAD -q
cp /repo/src/decaylanguage/_version.py "/tmp/wt/$n/src/decaylanguage/_version.py"
echo "/tmp/wt/$n"
