#!/bin/sh
# tools/rebase_wt.sh <worktree>: carry the uncommitted seeded change over to /repo's current main
wt="$1"; cd "$wt" || exit 2
if [ "$(git rev-parse HEAD)" != "$(git -C /repo rev-parse main)" ]; then
  git stash -q -- src && git checkout -q --detach main && git stash pop -q || { echo "REBASE CONFLICT in $wt"; exit 1; }
  cp /repo/src/decaylanguage/_version.py src/decaylanguage/_version.py
fi
git diff -- src > /tmp/_seed.diff; git -C /repo apply --check /tmp/_seed.diff && echo "rebased: applies to main"
