#!/bin/sh
# tools/rebase_wt.sh <worktree>: carry the uncommitted seeded change over to /repo's current main (no git stash: it is shared between worktrees)
wt="$1"; cd "$wt" || exit 2
if [ "$(git rev-parse HEAD)" != "$(git -C /repo rev-parse main)" ]; then
  git diff -- src > /tmp/_rb_$$.diff
  git checkout -- src && git checkout -q --detach main && git apply --3way /tmp/_rb_$$.diff || { echo "REBASE CONFLICT in $wt"; exit 1; }
  git reset -q
  cp /repo/src/decaylanguage/_version.py src/decaylanguage/_version.py
  rm -f /tmp/_rb_$$.diff
fi
git diff -- src > /tmp/_seed_$$.diff; git -C /repo apply --check /tmp/_seed_$$.diff && echo "rebased: applies to main"; rm -f /tmp/_seed_$$.diff
