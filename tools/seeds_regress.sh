#!/bin/sh
# tools/seeds_regress.sh : every stored seeded change must be reported (exit 1 + VIOLATION) by the check of the property
# it breaks. Works on a scratch copy of /repo/src under /tmp; /repo is never touched.
cd "$(dirname "$0")/.." || exit 2
rc=0
for d in seeded/*/; do
  id=$(basename "$d"); prop=$(python3 -c "import json;print(json.load(open('$d/meta.json'))['breaks_property'])")
  t=/tmp/seedtree_$$; rm -rf $t; mkdir -p $t; cp -r /repo/src $t/src
  if ! (cd $t && git apply "$OLDPWD/$d/patch.diff" 2>/dev/null || (cd $t && patch -s -p1 < "$OLDPWD/$d/patch.diff")); then echo "$id: PATCH DOES NOT APPLY to current /repo"; rc=1; rm -rf $t; continue; fi
  out=$(VERIF_REPO=$t ./check $prop quick 2>&1); c=$?
  if [ $c -eq 1 ] && echo "$out" | grep -q "^VIOLATION property=$prop"; then echo "$id: caught by $(echo "$out" | grep -o '^C[0-9]*\.[0-9]*' | sort -u | tr '\n' ' ')"; else echo "$id: NOT CAUGHT (rc=$c)"; rc=1; fi
  rm -rf $t
done
exit $rc
