#!/bin/sh
# tools/trial.sh <tree>  : run every property's quick check against another tree (e.g. a worktree with a seeded
# change) WITHOUT touching /repo or the committed evidence. Prints one line per property with exit code and first report.
tree="$1"
cd "$(dirname "$0")/.." || exit 2
for i in 01 02 03 04 05 06 07 08 09 10 11 12 13 14 15 16 17 18 19 20; do
  out=$(VERIF_REPO="$tree" ./check C$i quick 2>&1); rc=$?
  if [ $rc -ne 0 ]; then
    echo "C$i rc=$rc"
    echo "$out" | grep -v "^KNOWN-FINDING\|^    construct\|^VIOLATION\|^C$i \[" | cut -c1-300 | head -6
  fi
done
echo "trial done"
