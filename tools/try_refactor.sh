#!/bin/sh
# tools/try_refactor.sh <worktree> : for every refactor-k.patch in the worktree (behaviour-preserving edits made by a
# sub-agent), apply it alone to the clean worktree and run all 20 quick checks against that tree. Any non-zero exit is a
# FALSE ALARM of the checker (or a refactoring that is not behaviour-preserving: read it).
wt="$1"
cd "$wt" || exit 2
git checkout -q -- src
for p in refactor-*.patch; do
  [ -f "$p" ] || continue
  if git apply "$p" 2>/dev/null; then
    out=$(/verif/tools/trial.sh "$wt" 2>&1 | grep -v "^trial done")
    if [ -n "$out" ]; then echo "=== $wt/$p : ALARM"; echo "$out"; else echo "=== $wt/$p : silent"; fi
    git checkout -q -- src
  else
    echo "=== $wt/$p : does not apply"
  fi
done
