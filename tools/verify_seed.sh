#!/bin/sh
# tools/verify_seed.sh <worktree> : confirm a seeded change (1) passes the pinned suite, (2) demo fails with it and passes without it.
# Does NOT use `git stash` (the stash is shared by all worktrees of a repository, so concurrent use mixes changes up).
wt="$1"
cd "$wt" || exit 2
p=/tmp/seed_$$.diff
git diff -- src > $p
[ -s $p ] || { echo "SUMMARY no-diff"; exit 2; }
demo=""
for d in demo.py demo_test.py test_demo.py; do [ -f "$d" ] && demo="$d"; done
[ -n "$demo" ] || { echo "SUMMARY no-demo"; exit 2; }
run_demo() { case "$demo" in test_*|*_test.py) PYTHONPATH="$wt/src" /venv/bin/python -W ignore -m pytest -q -p no:cacheprovider "$demo" >/tmp/demo_$$.out 2>&1;; *) PYTHONPATH="$wt/src" /venv/bin/python -W ignore "$demo" >/tmp/demo_$$.out 2>&1;; esac; }
run_demo; with=$?
git checkout -- src
run_demo; without=$?
git apply $p || echo "SUMMARY could not re-apply the change"
echo "SUMMARY demo_with_change_rc=$with demo_without_change_rc=$without"
PYTHONPATH="$wt/src" /venv/bin/python -m pytest -ra -q -p no:cacheprovider --timeout=900 --continue-on-collection-errors 2>&1 | tail -4
rm -f $p /tmp/demo_$$.out
